"""Per-property configuration of bin/check."""
import vcheck as V

TRUSTED_COMMON = [
    "Coq 8.16.1 kernel (coqc; vm_compute used for case evaluation and Examples; no native_compute)",
    "no axioms: every property theorem must print 'Closed under the global context'",
    "correspondence harness (Go drivers in /verif/harness, case emission as Gallina terms, lib/engine.py verdict logic)",
    "Go toolchain and runtime",
]

BUILDERS = {
    "verifh": lambda: V.build_harness("verifh"),
    "verifs": V.build_sched_harness,
    "verifr": V.build_race_harness,
    "verif26": V.build_go126_harness,
    "verifc": V.build_caddy_harness,
}

EXTRA_STAGES = {}

SUB_STAGES = [
    {"kind": "cases", "name": "sequential", "driver": "SUBSEQ", "n": {"quick": 60, "thorough": 600}},
    {"kind": "cases", "name": "schedules", "driver": "SUB", "binary": "verifs", "parallel": 12, "n": {"quick": 60, "thorough": 600}},
]
SUB_RULE = ("sequential: method sequences on a real LocalSubscriber (buffer 1000) with 999/1000/1001/1500 pending updates live, from history, "
            "queued before go-live and with a consumer, plus random sequences, compared call by call with the transition system run under the "
            "sequential schedule; schedules: 2-3 goroutines each running 1-3 of Dispatch(live/history)/Ready/Disconnect on one subscriber whose "
            "sources are instrumented at check time (yield before every statement, buffer capacity 2): every schedule with <= 2 preemptions "
            "(<= 400 runs per scenario, 3 / 5000 in thorough) plus random schedules; each distinct outcome (results, delivered ids, closed, panic, "
            "all-blocked) must be an outcome of the atomic-method model and satisfy the spec predicate (no panic / deadlock, no duplicate, only dispatched ids, buffer bound, "
            "closed after Disconnect, one thread's successive live (resp. history) dispatches delivered in program order, every accepted update delivered once Ready has run "
            "unless cut off). non-trivial = scenario with more than one distinct outcome / "
            "sequential history with a refused dispatch or a closed channel")
SUB_TRUST = ["sync.RWMutex, sync/atomic and channels behave as the Go memory model says (DRF-SC); the model's steps are one shared access each",
             "the atomic-method model (Model/SubCases.v) used to predict outcome sets is an over-approximation stated, not proved, to contain the "
             "transition system's outcomes; the theorems are about the fine-grained transition system",
             "yieldify rewriter + cooperative scheduler (harness/cmd/yieldify, harness/overlay/zz_vsched.go.txt)"]

HUB_STAGE = {"kind": "cases", "name": "hub-histories", "driver": "HUBSEQ", "parallel": 8, "n": {"quick": 400, "thorough": 4000}}
HUB_RULE = ("handler-level sequential histories on the real hub (both transports; retention size 0/2/3; subscription events on/off): 6-20 operations "
            "drawn from a client that stops reading / reads again (its handler blocks in Write), bursts of publishes (every 8th case: 1000, 1001, 1002 or 1005 "
            "updates to a stalled subscriber while another one keeps reading, so that the hub cuts the slow one off; every 16th case: the same with subscription events on), publish (1-2 topics over {a,b,c}, private or not - the private field present with a value among on / empty / 0 / false / 1), subscribe (selectors over {a,b,c,*}, anonymous / claim [a|b] / claim [*], "
            "Last-Event-ID none / earliest / a published id / unknown), client leaves, Hub.Stop, restart on the same history file; observed: each "
            "stream's status, Last-Event-ID header, ids received, whether the hub ended it; every publish's status; the history file read back; "
            "subscription events in it; the Prometheus gauge and counters and the number of listed subscribers after every operation. Each case is replayed through Model/Hub.v's wstep "
            "and judged by the abstract sequential specification (Model/HubCases.v hub_spec_ok). non-trivial = at least 2 publishes and one matching pair")
HUB_TRUST = ["critical sections under the transport lock and LocalSubscriber methods are single steps of Model/Hub.v (reduction argument in the file header; "
             "the fine-grained subscriber system is Model/SubLts.v); concurrency is covered by the theorems (all schedules of the model) and by the "
             "schedule-steered stages where present, the tie to the code of this stage is sequential",
             "bbolt: atomic durable write transactions, snapshot reads, ordered cursor", "net/http, encoding/json, Prometheus client"]

TRANS_STAGE = {"kind": "cases", "name": "transport-schedules", "driver": "TRANS", "binary": "verifs", "parallel": 12, "n": {"quick": 24, "thorough": 240}}
TRANS_RULE = (" transport-schedules: 2-4 goroutines calling Dispatch / AddSubscriber(+Disconnect/RemoveSubscriber) / Close (also two concurrent calls of Close) on a real Bolt or local transport whose "
              "current sources are instrumented at check time (yield before every statement that calls out or touches a channel, locks routed through the scheduler, "
              "buffer capacity 2), with an initial history, optional restart before, Last-Event-ID none/earliest/stored/unknown: every schedule with <= 2 preemptions "
              "(<= 250 runs per scenario; 3 / 3000 in thorough) plus random schedules; every distinct outcome (per-publish result and logical time-stamps, per-subscriber "
              "delivered ids / closed, history file read back with bbolt, panic / all-blocked) is judged in Coq by Model/TransCases.v: matching only, no duplicate, history "
              "order, replay = exactly what follows the requested id (gap-free prefix if cut), real-time order, mandatory/forbidden deliveries by time-stamps, Close semantics.")
RACE_STAGE = {"kind": "race", "name": "race-stress", "dur": {"quick": "3s", "thorough": "60s"}}

SUBEV_STAGE = {"kind": "cases", "name": "subscription-events", "driver": "SUBEV", "n": {"quick": 150, "thorough": 3000}}
SUBEV_RULE = (" subscription-events: hubs with subscription tracking on (every 7th: off), both transports; a watcher receiving every private update and one authorized "
              "for the events of a single selector; 1-4 subscribers with 1-4 selectors over {plain, template, space, non-ASCII, '/?#', '%', '+', '*', '..', already-escaped}, "
              "duplicates, tokens with and without payload, leaving or staying; judged: every event's document id = the escaped URL (Coq sub_url), exactly one "
              "active=true / active=false per (subscriber, selector) in that order, payload and type, the restricted watcher sees exactly its selector's events.")

PROPS = {
    "C03": {
        "stages": [{"kind": "cases", "name": "token-mutations", "driver": "C03", "n": {"quick": 80, "thorough": 600}}],
        "rule": "hubs configured with every algorithm family it accepts (HS256/384/512, RS256/512, ES256/384, EdDSA; fresh keys per run), publisher and subscriber keys "
                "different - of another algorithm, or another key of the same algorithm -, anonymous on and off; the credential travels in the Authorization header, the "
                "authorization query parameter or the cookie; the first 18 draws of every hub are systematic (a token correctly signed for the endpoint's role but expired / "
                "not yet valid, on each endpoint through each carrier); for every draw a valid token (exp/nbf offsets 0, +-2 s, +-1 h) issued for one of the two roles and one mutation among: "
                "alg none (with/without signature), lower-case alg, HMAC keyed with the public PEM / a guessed secret, correctly signed with another family's key, "
                "truncated / empty / padded / std-alphabet signature, the token truncated to nothing, to its header, to the middle of its payload (a credential that is present is judged, however short), 2 or 4 segments, doubled separator, swapped segments, re-encoded payload, one base64 character "
                "flipped in each segment; one draw in five carries a mercure claim of a shape the claims structure cannot hold (list, string, number, true, publish as a string, "
                "subscribe as an object, a number among the selectors), correctly signed half of the time: its payload does not decode, so it is invalid whatever its signature; "
                "sent to the publish, subscribe or subscription-API endpoint. An independent verifier (Go crypto/* and encoding/base64 directly, "
                "no golang-jwt) supplies the primitives' results; the Coq pipeline and the spec predicate are evaluated on them and compared with the hub's status. "
                "non-trivial = mutated token, or a token issued for the other role",
        "trusted": ["cryptographic primitives (Go crypto/*), base64 and JSON decoders: oracles; golang-jwt's parsing is exercised, not modelled beyond its order of checks",
                    "the independent verifier in harness/cmd/verifh/c03.go"],
        "assumptions": ["unforgeability of HMAC / RSA / ECDSA / EdDSA is not established by anything here"],
    },
    "C18": {
        "stages": [{"kind": "cases", "name": "subscription-api", "driver": "SUBAPI", "n": {"quick": 200, "thorough": 4000}}, HUB_STAGE],
        "rule": "subscription-api: hubs with the subscription API on both transports; 1-4 subscribers with 1-4 selectors over the escaping alphabet (space, '+', '/', '%', "
                "'?#', '.', '..', ';', non-ASCII, U+0000, templates, already-escaped), some gone, publishes in between; the collection, every per-topic collection "
                "(plus one nobody uses), the dereference of every listed id by the URL the API returned, unknown selector / unknown subscriber pairs, If-None-Match (current and stale validators; every authorisation probe is repeated with the current validator: 304 for an allowed caller, still 401 for the others), HEAD on existing and absent resources, and "
                "caller claims {exact URL, template, '*', unrelated, none, empty, the decoded form of an escaped URL, a template over the decoded form} on three URLs (one needing escaping); in 60% of the cases the history ends with a publish whose id the harness chose (to a topic somebody or nobody listens to) so that lastEventID / ETag are checked against an id known independently of the hub; judged against Model/SubApi.v (listing, deref, sub_url, can_receive). "
                "non-trivial = at least two listed documents. hub-histories: " + HUB_RULE,
        "trusted": HUB_TRUST + ["gorilla/mux routing on the encoded path and net/http URL parsing: glue covered by the differential run only"],
        "assumptions": ["selectors and subscriber ids are non-empty byte strings"],
    },
    "C19": {
        "binaries": ["verifc"],
        "stages": [{"kind": "cases", "name": "configurations", "driver": "C19", "binary": "verifc", "n": {"quick": 600, "thorough": 12000}},
                   {"kind": "cases", "name": "shared-bolt-file", "driver": "C19PATH", "binary": "verifc", "n": {"quick": 2, "thorough": 8}}],
        "rule": "configurations: 60% Caddyfile blocks (0-14 mercure directives in random order with repeats: publisher_jwt / subscriber_jwt with keys {two HMAC secrets, an RSA "
                "public key, empty} and algorithms {absent, empty, HS256/384/512, RS256, ES256, XX, none}, anonymous, subscriptions, publish_origins / cors_origins over valid "
                "and invalid origins, cookie_name, protocol_version_compatibility {7, 6, 8, 0}, the three timeouts, transport bolt/local as module or as legacy transport_url), "
                "20% the JSON form of the module, 20% the legacy viper options; each is unmarshalled and provisioned in-process by the real module (caddyfile dispenser -> "
                "UnmarshalCaddyfile / strict JSON -> Provision with a caddy.Context; NewHubFromViper) and, when accepted, probed through its handler: which of 11 candidate "
                "(key, algorithm) tokens publish, which subscribe, anonymous subscription, subscription API present, the cookie name consulted (valid / garbage token under 4 names), "
                "CORS header and cookie-authenticated publish from 4 origins, a public publish outside the publish claim (compatibility 7); plus the effective options struct "
                "(timeouts, transport type, origins, cookie, flags) read through an accessor added at build time; MERCURE_TRANSPORT_URL is set in the environment in 20% of the cases; one key argument in three is written as an {env.*} placeholder expanding to the key (to nothing for the empty key); the duration universe includes an explicit 0. Compared with Model/Config.v and judged by cfg_spec_ok "
                "(every permission in effect was asked for; refusals where required; the configured key verifies; the configured transport and the configured timeouts - an explicit zero included - are the ones in effect). non-trivial = accepted configuration. shared-bolt-file: two mercure blocks provisioned in "
                "one process whose Bolt transports name the same file with different sizes and bucket names: the second is refused (file lock) or retains what its own size says.",
        "trusted": ["caddyfile tokenizer, caddy.Context module loading, viper: glue exercised by the differential run only",
                    "key_ok / origin_ok oracles: tables computed by the harness's own rules (HMAC any key; RS256 iff the key is the RSA PEM; scheme://host[:port], * or null)",
                    "golang-jwt signs the candidate tokens; token verification itself is C03",
                    "two read-only accessors overlaid at build time (harness_caddy/overlay): mercure.VerifOptions, caddy.VerifHub"],
        "assumptions": ["keys and arguments contain no known Caddy placeholder ({env.X}, ...) and no double quote (a brace group that is not a placeholder is covered)", "one transport style (module or transport_url) per configuration; "
                        "JWKS URLs, demo/ui, lru_cache not modelled"],
    },
    "C16": {
        "binaries": ["verif26"],
        "stages": [{"kind": "cases", "name": "virtual-clock", "driver": "C16", "binary": "verif26", "gotest": "TestC16", "n": {"quick": 6, "thorough": 60}}],
        "rule": "the real SubscribeHandler under testing/synctest's virtual clock (Go 1.26) with a ResponseWriter that enforces write deadlines against that clock: "
                "every combination of write timeout {0, 3 s, 20 s} x dispatch timeout {0, 1 s, 7 s} x heartbeat {0, 1.7 s, 30 s} x token expiry {absent, 5 s, 10 s, 40 s} "
                "(including dispatch timeouts beyond the write timeout or beyond the token's remaining life: the disconnection instant is then already past when the connection opens and the hub ends it at once), each with n random publish timings (0-4 updates at distinct millisecond residues so that no two timers tie); "
                "observed: the virtual instant of every successful write and of the handler's return, up to a 60 s horizon; compared with the timed automaton and "
                "judged by the property predicate. non-trivial = at least one write and the hub ended the stream itself",
        "trusted": ["testing/synctest (virtual time, Go 1.26 runtime); the clock-enforcing ResponseWriter stands for net/http's deadline handling",
                    "Go's select picks any ready case: configurations where two timers are due at the same instant are not generated"],
        "assumptions": ["writes take no time in the model; a disconnection instant that is already past (negative on the model's time line) is observed as instant 0"],
    },
    "C17": {"stages": [SUBEV_STAGE, HUB_STAGE], "rule": SUBEV_RULE + " hub-histories: " + HUB_RULE, "trusted": HUB_TRUST + ["encoding/json document layout"],
            "assumptions": ["the hub is not closed while events are due (a closed transport refuses the dispatch of the event itself)"]},
    "C01": {"binaries": ["verifh", "verifs"],
            "stages": [HUB_STAGE, TRANS_STAGE, SUBEV_STAGE, {"kind": "cases", "name": "index", "driver": "C05", "n": {"quick": 800, "thorough": 10000}},
                       {"kind": "cases", "name": "private-shared-ids", "driver": "PRIVID", "n": {"quick": 60, "thorough": 600}}],
            "rule": HUB_RULE + TRANS_RULE + " private-shared-ids: 2-9 publishes, private or public, with topics [t] or [t, u], whose ids are drawn from a pool of three and repeat the previous "
                    "one half of the time (so private and public updates share ids), payloads distinct; three subscribers to t (anonymous, token covering u and - which grants nothing - 'T', token covering t), live and (Bolt) "
                    "replaying from 'earliest': each stream must carry exactly the payloads its subscriber may receive (the models identify an update by its id: this stage covers what that hides). index: the operation histories of C05 against the real SubscriberList (private bit, claims, topics with the delimiter / escape characters): "
                    "who is handed a private update is decided there." + SUBEV_RULE, "trusted": HUB_TRUST + ["matching itself: C05/C11; token verification: C03"], "assumptions": []},
    "C06": {"binaries": ["verifh", "verifs", "verifr"],
            "stages": [TRANS_STAGE, SUB_STAGES[1], HUB_STAGE, {"kind": "cases", "name": "shared-ids", "driver": "DUPID", "n": {"quick": 60, "thorough": 600}}, RACE_STAGE],
            "rule": TRANS_RULE.strip() + " schedules: " + SUB_RULE + " hub-histories: " + HUB_RULE + " shared-ids: 2-9 publishes whose ids are drawn from a pool of four (one of them "
                    "empty) and repeat the previous one half of the time, payloads distinct; the payloads on the stream of a subscriber connected before, and (Bolt) of one replaying "
                    "from 'earliest' afterwards, must be the published ones, once each, in order (the models identify an update by its id: this stage covers what that abstraction hides). The transport-schedule corpus includes two publishers with a connected (and a replaying) subscriber on the persistent transport: the live order must be the stored order. race-stress: unsteered concurrent publishers and subscribers on both transports under the Go race detector (supporting search).",
            "trusted": HUB_TRUST + ["yieldify rewriter + cooperative scheduler (harness/cmd/yieldify, harness/overlay/zz_vsched.go.txt) for the schedule-steered stage"],
            "assumptions": ["published update ids are distinct and below 2^40 (the model's range for subscription-event ids); exactly-once is stated for distinct ids",
                            ]},
    "C07": {"binaries": ["verifh", "verifs"],
            "stages": [TRANS_STAGE, SUB_STAGES[1], HUB_STAGE, {"kind": "cases", "name": "subscriber-sequential", "driver": "SUBSEQ", "n": {"quick": 60, "thorough": 600}},
                       {"kind": "cases", "name": "negotiation", "driver": "C08", "n": {"quick": 600, "thorough": 8000}}],
            "rule": TRANS_RULE.strip() + " schedules: " + SUB_RULE + " hub-histories: " + HUB_RULE + " subscriber-sequential: replays of 999/1000/1001/1500 updates through a real LocalSubscriber (buffer 1000): "
                    "larger than the buffer means cut off with a gap-free prefix. negotiation: the C08 stage (histories with duplicate ids, retention): the replay is everything after the FIRST occurrence of the requested id.",
            "trusted": HUB_TRUST + ["yieldify rewriter + cooperative scheduler for the schedule-steered stage", "bbolt cursor order and snapshot isolation of the read transaction"],
            "assumptions": ["a requested id that is stored only after the registration, or that retention has already dropped, is treated as unknown"]},
    "C09": {"binaries": ["verifh", "verifs"],
            "stages": [{"kind": "cases", "name": "kill-points", "driver": "CRASH", "binary": "verifs", "n": {"quick": 1, "thorough": 1}}, HUB_STAGE, {"kind": "cases", "name": "failed-write", "driver": "FAILW", "n": {"quick": 4, "thorough": 16}}],
            "rule": "kill-points: a publish sequence on a real Bolt transport (sizes 0/2/3, initial history 0-3, 1-2 subscribers; thorough: sizes 0-4 x initial 0-5 x 4 publishes) "
                    "under the cooperative scheduler; for EVERY scheduling point of the instrumented current sources (before/after the write transaction, between persistence and "
                    "fan-out, inside cleanup, in the subscriber's methods) all goroutines are frozen for ever, the history file is copied as the kill left it and reopened: it must "
                    "reopen, hold exactly the retention window of some number of publications >= everything acknowledged or already handed to a subscriber, and report the last "
                    "stored id. hub-histories: " + HUB_RULE + " (restarts there are graceful stops). failed-write: a publish whose write transaction fails (ids of 32761-70000 bytes make the key larger than bbolt accepts) "
                    "between two ordinary ones, a live subscriber connected; the file is then copied and read with bbolt: acknowledged (2xx, or the id as body) or handed to the subscriber implies stored, and the neighbours are stored.",
            "trusted": HUB_TRUST + ["a frozen process with the file copied stands for kill -9 (page cache survives); power loss and bbolt's fsync protocol are not exercised",
                                    "the kill points are the scheduling points of mercure's own statements: a kill inside bbolt's commit is bbolt's atomicity (trusted)"],
            "assumptions": []},
    "C15": {"binaries": ["verifh", "verifs"],
            "stages": [HUB_STAGE, TRANS_STAGE, {"kind": "cases", "name": "mass-close", "driver": "MASSCLOSE", "n": {"quick": 2, "thorough": 8}}],
            "rule": HUB_RULE + TRANS_RULE + " mass-close: 1025-2060 connected subscribers on each transport (more than any batch a transport might process at a time), "
                    "five of them gone before, then Hub.Stop: every stream ended by the hub, a later subscription and a later publish refused; judged by the specification "
                    "predicate alone (the hub model is not replayed on a thousand registrations).", "trusted": HUB_TRUST, "assumptions": []},
    "C20": {"stages": [HUB_STAGE, {"kind": "cases", "name": "simultaneous", "driver": "GAUGE", "parallel": 4, "n": {"quick": 40, "thorough": 400}}],
            "rule": HUB_RULE + " simultaneous: forty waves per hub of 8 clients connecting at the same moment, (every 8th wave) 4 publishers posting at the same moment, the 8 clients leaving at the "
                    "same moment; after each the gauge must equal the number of open streams and the counters the accepted subscriptions / updates (unsteered concurrency: a "
                    "supporting search; the theorems cover every schedule of the model).",
            "trusted": HUB_TRUST, "assumptions": []},
    "C13": {
        "binaries": ["verifh", "verifs"],
        "stages": SUB_STAGES + [TRANS_STAGE, HUB_STAGE],
        "rule": SUB_RULE + TRANS_RULE + " hub-histories: " + HUB_RULE,
        "trusted": SUB_TRUST + ["wall-clock time is not modelled: 'bounded' means a bounded number of steps of the publisher plus the critical sections ahead of it"],
        "assumptions": ["Ready is called once per subscriber (AddSubscriber does)"],
    },
    "C14": {
        "binaries": ["verifh", "verifs", "verifr"],
        "stages": SUB_STAGES + [TRANS_STAGE, RACE_STAGE],
        "rule": SUB_RULE + TRANS_RULE + " race-stress: unsteered concurrent use of both transports' public API under the Go race detector (supporting search).",
        "trusted": SUB_TRUST + ["skipfilter / roaring internals and the transport locks are not in this transition system: they are exercised by the transport-schedules and race-stress stages"],
        "assumptions": ["Ready is called once per subscriber (AddSubscriber does)"],
    },
    "C02": {
        "stages": [{"kind": "cases", "name": "publish", "driver": "C02", "n": {"quick": 1, "thorough": 1}}, {"kind": "cases", "name": "query-string-fields", "driver": "QTOPIC", "n": {"quick": 1, "thorough": 1}}],
        "exhaustive": True,
        "rule": "EXHAUSTIVE enumeration of the abstract shape table through real POSTs: publish claim in {key absent, null, [], literal hit, literal miss, the same literal twice, template + literal covering the same topic, "
                "template hit, '*' first / middle / last, no token, bad signature} x topic lists of length 1-3 over {allowed, forbidden} in every position "
                "x private {absent, present with value on / empty / 0} x compat {off, 7} x body {well-formed, no topic, bad retry, retry overflow, wrong "
                "content type, unparsable (these five with 1-topic lists)} x {local, bolt}; after every request a sentinel publish separates what a witness "
                "subscriber (every topic, every right) received because of it, and on bolt the ids appended to the history are read back. "
                "query-string-fields (also exhaustive): every subset of {topic (one the claim does not cover), data, id, type, private} placed in the URL's query string x topic in the body or not x "
                "private or not x {local, bolt}, with a claim covering only the body's topic: a witness of the uncovered topic must see nothing, and an accepted update must carry the body's id, data and type only. "
                "non-trivial = well-formed body with a verifiable token",
        "trusted": ["net/http form decoding (the form the model sees is ParseForm's result on a copy of the request)", "JWT verification (C03): tokens are "
                    "known-valid or known-invalid by construction", "uritemplate oracle"],
        "assumptions": ["a publisher key is configured (the hub cannot start without one)"],
    },
    "C04": {
        "stages": [{"kind": "cases", "name": "carriers", "driver": "C04", "n": {"quick": 1, "thorough": 1}}],
        "exhaustive": True,
        "rule": "EXHAUSTIVE product {absent, valid, invalid signature, malformed, duplicated, present with an empty value}^3 over the Authorization header, the authorization query "
                "parameter and the cookie (each valid credential carries different rights, so the effective identity is observable) x endpoint {publish POST, "
                "subscribe GET, subscription API GET} x anonymous {on, off} x cookie name {default, custom}; plus, for a cookie alone on a POST, Origin "
                "{absent, allowed, not allowed, 'null'} x Referer {absent, allowed, not allowed, unparsable, allowed host with another port, allowed host with the other scheme} x publish origins {none, list, '*', list containing 'null'} x cookie {valid, invalid}. "
                "Observed per case: three probes (publish topics / private deliveries / subscription URLs). non-trivial = at least two carriers present, or the CSRF rule in play",
        "trusted": ["net/http header, cookie and query parsing; url.Parse for the Referer (oracle table computed with url.Parse directly)", "JWT verification (C03)"],
        "assumptions": [],
    },
    "C08": {
        "stages": [{"kind": "cases", "name": "negotiation", "driver": "C08", "n": {"quick": 600, "thorough": 8000}}],
        "rule": "exhaustive carriers {absent, empty, X, Y}^3 (header, lastEventID, legacy Last-Event-ID) x compat {off, 7} x {local, bolt} on a fixed history, "
                "then generated histories (0-7 ids over {a,b,c,d,'earliest'} with duplicates, retention size in {0,2,3} truncating them, or - cleanup frequency 0 - not truncating them although a size is set; the retained history is read with bbolt from a copy of the file, not through the replay under test) x requested id in the "
                "alphabet + {unknown, earliest} via a random carrier; observed: Last-Event-ID response header and the ids replayed before a sentinel. "
                "non-trivial = an id was requested from a non-empty persistent history",
        "trusted": ["net/http header/query parsing", "bbolt cursor order"],
        "assumptions": ["every stored update matches the subscriber (topic *) and nothing is published concurrently: C07 covers the rest"],
    },
    "C05": {
        "stages": [{"kind": "cases", "name": "index", "driver": "C05", "n": {"quick": 1500, "thorough": 20000}}],
        "rule": "operation histories (4-30 ops: add / remove / dispatch) against the real SubscriberList (index cache of 1, 2, 3 or 100000 memos; "
                "selector store uncached or tiny LRU); topics over {a,b,0,1,U+0000,U+0001,'{','}','*','/',multibyte, empty string}, 1-4 topics with duplicates "
                "and permuted re-dispatches, private bit; recipients compared as sets with the model index and with the naive history-based spec, the "
                "URI-template oracle evaluated afresh per case. non-trivial = some dispatch has at least one matching and one non-matching connected subscriber",
        "trusted": ["skipfilter/skiplist/roaring/LRU modelled by contract (ordered id set + per-key memo, arbitrary forgetting)",
                    "uritemplate + regexp as oracle (Section variable tmatch; hypothesis: brace-free templates match only themselves)"],
        "assumptions": ["topic lists are non-empty (the HTTP handlers reject empty ones)", "no subscriber is added while connected",
                        "topics are valid UTF-8 (decode iterates runes; on valid UTF-8 bytes 0x00/0x01 occur only as U+0000/U+0001)"],
    },
    "C10": {
        "stages": [{"kind": "cases", "name": "retention", "driver": "C10", "n": {"quick": 600, "thorough": 6000}}, {"kind": "cases", "name": "reconfigured", "driver": "C10V", "n": {"quick": 150, "thorough": 3000}}],
        "rule": "publish sequences (1-40) on a real BoltTransport with size 0-12, cleanup frequency in {0, 0.3, 0.5, 0.9, 1}, payloads 10 B-8 KiB "
                "(inline bucket / one leaf / several pages), close+reopen between publishes with probability 0.15, a publish the database refuses (40000-byte id) before 8% of them; after every publish the retained ids are "
                "read back through an 'earliest' replay; each step must be one of the model's two outcomes (cleanup ran / did not run) and satisfy the window "
                "predicate. reconfigured: 6-45 publishes with restarts (probability 0.2) at which the size (0-12) and the frequency ({0, 0.5, 1}) may change, as when an operator edits the configuration; each step is judged "
                "with the configuration in force: contiguous up to the newest, nothing discarded while fewer than size newer updates exist, nothing older left when cleanup runs on every publication, nothing discarded when it never runs. "
                "non-trivial = more publishes than size (size>0) or a cleanup that had to delete several keys at once; reconfigured: the size or the frequency changed",
        "trusted": ["bbolt by contract (ordered map, durable per-bucket sequence); the trigger's random draw is observed, not predicted"],
        "assumptions": ["fewer than 1000 retained updates per case (observation goes through one subscriber's buffer)"],
    },
    "C11": {
        "stages": [{"kind": "cases", "name": "lookups", "driver": "C11", "n": {"quick": 1500, "thorough": 20000}},
                   {"kind": "cases", "name": "templates", "driver": "URITPL", "n": {"quick": 400, "thorough": 6000}}],
        "rule": "sequences of 5-30 (topic, selector) lookups, and 2-4 goroutines sharing one store, against stores without cache, of size 0, tiny "
                "(1-3 entries x 1-2 shards) and default; selectors: literals, every RFC 6570 operator/modifier, malformed templates; topics: expansions for "
                "random values over unreserved, reserved (gen-delims, sub-delims) and never-literal characters, near misses (a character dropped or added, the case of one letter flipped), a literal prefix followed by reserved characters, strings around the cache-key separator '_' and pairs built to collide under key concatenation; templates padded with blanks, tabs and newlines (not templates: they match only themselves); a corpus of two templates whose compiled-template cache keys share a 32-bit FNV-1a hash (found by a birthday search at run time), evaluated in both orders on stores of three sizes; every answer "
                "compared with the cached model and with a fresh uncached evaluation by the library. non-trivial = sequence has both true and false answers. "
                "templates: generated selectors (1-4 parts: literals over ASCII punctuation, pct-triplets, 2-4 byte UTF-8, or expressions with every operator, 1-6 variables, names with dots and triplets, "
                "prefix and explode modifiers, invalid prefixes; 30% mutated by dropping / inserting braces, blanks, controls, invalid UTF-8, U+FFFD, non-characters; expressions of 999-1500 variables around the "
                "regexp package's repetition limit) x 8-12 topics each (the selector itself, expansions by the library for string values and for list / associative values, near misses: a byte dropped or inserted, "
                "a suffix, another variable name; random strings over the separators): the model must agree with the library on parsed / compiled / every MatchString, the hub (cached and uncached store) must "
                "answer '*' or equality or the library's fresh answer without panicking, every expansion for string and list values must match, and no topic proved not to be an expansion may match. "
                "non-trivial = a compilable template with both matching and non-matching topics",
        "trusted": ["Go's regexp engine and the uritemplate library are modelled (Model/UriTemplate.v) and compared differentially, not verified; in the cache theorems the library is any function (Section variable tmatch)",
                    "hashicorp LRU modelled as a map that may forget any entry at any time"],
        "assumptions": [],
    },
    "C12": {
        "stages": [{"kind": "cases", "name": "sse", "driver": "C12", "n": {"quick": 3000, "thorough": 40000}}],
        "rule": "unit cases: Event.String() bytes of generated events (payload alphabet CR/LF/CRLF/':'/space/field names/NUL/multibyte; "
                "every 10th malformed: CR/LF or NUL in id/type) compared with the model serializer and parsed by the model's WHATWG parser; "
                "stream cases: 1-3 form-encoded POSTs through the hub on local/bolt (live and replay; retry written in decimal, with leading zeros half of the time) and the bytes one subscriber received. "
                "non-trivial = payload has a line break or type/retry set (unit), every stream case; distinct = distinct Gallina case term",
        "trusted": ["WHATWG event-stream interpretation transcribed by hand into Model/Sse.v (sse_parse)",
                    "net/http form decoding, encoding/json (bolt path), gofrs/uuid freshness: exercised by the stream cases only"],
        "assumptions": ["payloads, ids and types are valid UTF-8 on the end-to-end path (bolt re-serialises through JSON)"],
    },
}
