"""Per-property configuration of bin/check."""
import vcheck as V

TRUSTED_COMMON = [
    "Coq 8.16.1 kernel (coqc; vm_compute used for case evaluation and Examples; no native_compute)",
    "no axioms: every property theorem must print 'Closed under the global context'",
    "correspondence harness (Go drivers in /verif/harness, case emission as Gallina terms, lib/engine.py verdict logic)",
    "Go toolchain and runtime",
]

BUILDERS = {
    "verifh": lambda: V.build_harness("verifh"),
}

EXTRA_STAGES = {}

PROPS = {
    "C12": {
        "stages": [{"kind": "cases", "name": "sse", "driver": "C12", "n": {"quick": 3000, "thorough": 40000}}],
        "rule": "unit cases: Event.String() bytes of generated events (payload alphabet CR/LF/CRLF/':'/space/field names/NUL/multibyte; "
                "every 10th malformed: CR/LF or NUL in id/type) compared with the model serializer and parsed by the model's WHATWG parser; "
                "stream cases: 1-3 form-encoded POSTs through the hub on local/bolt (live and replay) and the bytes one subscriber received. "
                "non-trivial = payload has a line break or type/retry set (unit), every stream case; distinct = distinct Gallina case term",
        "trusted": ["WHATWG event-stream interpretation transcribed by hand into Model/Sse.v (sse_parse)",
                    "net/http form decoding, encoding/json (bolt path), gofrs/uuid freshness: exercised by the stream cases only"],
        "assumptions": ["payloads, ids and types are valid UTF-8 on the end-to-end path (bolt re-serialises through JSON)"],
    },
}
