"""bin/check <Cnn> quick|thorough   |   bin/check <Cnn> --replay <file>"""
import json
import os
import sys
import time

import vcheck as V
import props
import findings as F


class Ctx:
    def __init__(self, prop, tier, seed):
        self.prop, self.tier, self.seed = prop, tier, seed
        self.violations = []   # dicts: what, replay(payload), no_input(bool)
        self.known = {}        # finding id -> text
        self.cov = {"evaluations": 0, "distinct_nontrivial": 0, "samples": [], "distribution": {}, "stages": {}}
        self.binaries = {}
        self.replay_only = None

    def violation(self, what, payload, no_input=False):
        payload = dict(payload, property=self.prop, seed=self.seed, tier=self.tier, what=what)
        self.violations.append({"what": what, "payload": payload, "no_input": no_input})

    def add_cov(self, stage, ev, nontriv, samples, dist, extra=None):
        c = self.cov
        c["evaluations"] += ev
        c["distinct_nontrivial"] += nontriv
        c["samples"] += samples[:3]
        for k, v in dist.items():
            c["distribution"]["%s/%s" % (stage, k)] = v
        c["stages"][stage] = dict({"evaluations": ev, "distinct_nontrivial": nontriv}, **(extra or {}))


def _run_shard(ctx, st, binp, sd, nn, outdir, only):
    """one driver run + evaluation in Coq; returns dict(rc, out, meta, bad_model, bad_spec, errors)"""
    if st.get("gotest"):
        # a Go test binary (virtual clock harness): parameters through the environment
        import shutil
        shutil.rmtree(outdir, ignore_errors=True)
        os.makedirs(outdir, exist_ok=True)
        env = dict(V.GOENV, VERIF_OUT=outdir, VERIF_SEED=str(sd), VERIF_N=str(nn), VERIF_TIER=ctx.tier)
        rc, out, dt = V.run([binp, "-test.run", st["gotest"], "-test.timeout", "20m"], cwd=V.WORK, env=env, timeout=1500)
    else:
        rc, out, dt = V.run_driver(binp, st["driver"], sd, nn, ctx.tier, outdir,
                                   only=(only["index"] if only else None), timeout=st.get("timeout", 6000),
                                   extra_args=st.get("args"))
    r = {"rc": rc, "out": out, "seed": sd, "n": nn}
    if rc != 0:
        return r
    meta = json.load(open(os.path.join(outdir, "meta.json")))
    r["meta"] = meta
    r["bad_model"], r["bad_spec"], r["errors"] = V.coq_eval_cases(outdir, meta["shard_size"])
    return r


def stage_cases(ctx, st):
    """Standard stage: Go driver emits cases (inputs + what the implementation did) as Coq terms;
    coqc evaluates model agreement and the spec predicate on every case. A stage may be split into
    parallel runs of the driver with different generator seeds ("parallel": k): each case then
    carries the seed and count of its own run, which is what a replay regenerates."""
    import concurrent.futures as cf
    name = st["name"]
    binp = ctx.binaries[st.get("binary", "verifh")]
    n = st["n"][ctx.tier]
    seed = ctx.seed
    rounds = [(seed, n, False)]
    done_enlarged = False
    while rounds:
        sd, nn, enlarged = rounds.pop(0)
        base = os.path.join(V.WORK, "cases", "%s-%s%s" % (ctx.prop, name, "-x" if enlarged else ""))
        only = ctx.replay_only if ctx.replay_only and ctx.replay_only.get("stage") == name else None
        par = 1 if only else max(1, min(int(st.get("parallel", 1)), nn))
        if only:
            jobs = [(only["seed"], only["n"], base)]
        elif par == 1:
            jobs = [(sd, nn, base)]
        else:
            per = (nn + par - 1) // par
            jobs = [(sd + 7919 * k, per, "%s-p%d" % (base, k)) for k in range(par)]
        with cf.ThreadPoolExecutor(max_workers=len(jobs)) as ex:
            results = list(ex.map(lambda j: _run_shard(ctx, st, binp, j[0], j[1], j[2], only), jobs))
        for r in results:
            if r["rc"] != 0:
                ctx.violation("driver %s failed against the current tree (correspondence %s no longer checks)" % (st["driver"], name),
                              {"kind": "correspondence", "stage": name, "broken": "correspondence:" + name, "log": r["out"][-3000:]}, no_input=True)
                return
            if r["errors"]:
                ctx.violation("case evaluation failed in Coq for stage %s" % name,
                              {"kind": "correspondence", "stage": name, "broken": "correspondence:" + name, "log": r["errors"][0][-3000:]}, no_input=True)
                return
        if not enlarged:
            ev = sum(r["meta"]["evaluations"] for r in results)
            nt = sum(r["meta"]["distinct_nontrivial"] for r in results)
            dist = {}
            for r in results:
                for k, v in r["meta"].get("distribution", {}).items():
                    dist[k] = dist.get(k, 0) + v if isinstance(v, (int, float)) else v
            extra = {k: results[0]["meta"][k] for k in results[0]["meta"] if k not in ("descs", "distribution", "shard_size", "shards", "evaluations", "distinct_nontrivial")}
            extra["parallel_runs"] = len(results)
            ctx.add_cov(name, ev, nt, results[0]["meta"]["descs"], dist, extra)
        unmatched, only_model = [], []   # (result, index)
        for r in results:
            descs = r["meta"]["descs"]
            bm, bs = set(r["bad_model"]), set(r["bad_spec"])
            for i in r["bad_spec"]:
                fid = F.match(ctx.prop, descs[i]) if i not in bm else None
                if fid:
                    ctx.known[fid] = F.text(fid)
                else:
                    unmatched.append((r, i))
            only_model += [(r, i) for i in r["bad_model"] if i not in bs]
        if unmatched:
            r, i = min(unmatched, key=lambda x: V.desc_size(x[0]["meta"]["descs"][x[1]]))
            ctx.violation("spec predicate false on the implementation's output (stage %s, case %d; %d failing cases)" % (name, i, len(unmatched)),
                          {"kind": "input", "stage": name, "case": r["meta"]["descs"][i], "index": i, "gen_seed": r["seed"], "gen_n": r["n"],
                           "spec_ok": False, "model_agrees": i not in set(r["bad_model"]),
                           "how_to_replay": "bin/check %s --replay <this file>" % ctx.prop})
            return
        if only_model and not enlarged and not only:
            # correspondence broken; search an enlarged case set for an input violating the spec
            r, first = min(only_model, key=lambda x: V.desc_size(x[0]["meta"]["descs"][x[1]]))
            ctx._pending = (name, r["meta"]["descs"][first], first, r["seed"], r["n"], len(only_model))
            rounds.append((seed + 1000003, nn * 10, True))
            done_enlarged = True
            continue
        if only_model and only:
            r, i = only_model[0]
            ctx.violation("model and implementation disagree on the replayed case (stage %s)" % name,
                          {"kind": "correspondence", "stage": name, "case": r["meta"]["descs"][i]}, no_input=True)
    if done_enlarged and not any(v for v in ctx.violations if v["payload"].get("stage") == name):
        name, d, i, sd, nn, cnt = ctx._pending
        ctx.violation("model and implementation disagree (stage %s, %d cases) and no input violating the spec predicate was found" % (name, cnt),
                      {"kind": "correspondence", "stage": name, "broken": "correspondence:%s (theorems of Properties/%s.v are about a model the code no longer follows)" % (name, ctx.prop),
                       "case": d, "index": i, "gen_seed": sd, "gen_n": nn}, no_input=True)


def stage_race(ctx, st):
    """Unsteered stress of the public API under the Go race detector (supporting search for C14: data races,
    panics, hangs). A report is a violation with the first report as replay."""
    binp = ctx.binaries["verifr"]
    dur = st["dur"][ctx.tier]
    rc, out, dt = V.run([binp, "-seed", str(ctx.seed), "-dur", dur], cwd=V.WORK, env=V.GOENV, timeout=1200)
    races = out.count("WARNING: DATA RACE")
    ops = sum(int(x) for x in __import__("re").findall(r"ops=(\d+)", out))
    ctx.add_cov(st["name"], max(ops, 1), 2 if ops > 1000 else 0,
                [{"stress": "publish x3, subscribe/receive/disconnect/remove x4, list, close; both transports", "ops": ops, "duration_per_transport": dur}],
                {"ops": ops, "data_races": races}, {"data_races": races, "exit": rc})
    if races or rc != 0:
        i = out.find("WARNING: DATA RACE")
        what = "race detector: %d data race reports" % races if races else "stress run failed: " + " | ".join(l for l in out.splitlines() if l.startswith(("PANIC", "HANG")))
        ctx.violation(what + " (stage %s)" % st["name"],
                      {"kind": "schedule", "stage": st["name"], "report": out[i:i + 4000] if i >= 0 else out[-3000:],
                       "how_to_replay": ".work/verifr -seed %d -dur %s (unsteered: the report is the witness)" % (ctx.seed, dur)})


STAGES = {"cases": stage_cases, "race": stage_race}


def main(argv):
    if len(argv) < 2:
        print(__doc__)
        return 2
    prop = argv[0]
    cfg = props.PROPS[prop]
    seed = int(os.environ.get("VERIF_SEED", "1") or 1)
    replay = None
    if argv[1] == "--replay":
        replay = json.load(open(argv[2]))
        tier = replay.get("tier", "quick")
        seed = replay.get("seed", seed)
    else:
        tier = argv[1]
    if tier not in ("quick", "thorough"):
        print(__doc__)
        return 2
    t0 = time.time()
    ctx = Ctx(prop, tier, seed)
    if replay and replay.get("kind") == "input":
        ctx.replay_only = {"stage": replay["stage"], "index": replay["index"], "seed": replay["gen_seed"], "n": replay["gen_n"]}

    # 1. the proof side
    bad = V.scan_forbidden()
    cmds = []
    h = V.coq_sources_hash()
    stamp = os.path.join(V.WORK, "fullbuild-" + h)
    clean = tier == "thorough" and not os.path.exists(stamp)
    ok, out = V.coq_make(clean=clean)
    cmds.append("make -C coq -j%d%s" % (V.NPROC, " (from clean)" if clean else ""))
    if ok and tier == "thorough":
        open(stamp, "w").write("ok")
    audit = {"obligations": 0, "discharged": 0, "theorems": [], "axioms": {}, "ok": False, "log": out[-3000:]}
    if ok:
        audit = V.coq_property(prop)
        cmds.append("coqc -R . Mercure Properties/%s.v (Print Assumptions audited)" % prop)
    if bad:
        audit["ok"] = False
    if not audit["ok"]:
        ctx.violation("proof side does not check: %s" % (("forbidden constructs " + ", ".join(bad)) if bad else "coq build / Print Assumptions audit failed"),
                      {"kind": "theorem", "broken": "Properties/%s.v: %s" % (prop, ", ".join(audit["theorems"]) or "build"),
                       "log": audit.get("log", "")[-3000:], "axioms": audit.get("axioms")}, no_input=True)
    coqchk = None
    if tier == "thorough" and audit["ok"]:
        coqchk = V_coqchk(h)
        cmds.append(coqchk["cmd"])
        if not coqchk["ok"]:
            ctx.violation("coqchk rejects the compiled development", {"kind": "theorem", "broken": "coqchk", "log": coqchk["log"][-3000:]}, no_input=True)

    # 2. the harnesses, rebuilt from /repo's working tree
    for b in cfg.get("binaries", ["verifh"]):
        okb, outb, binp = props.BUILDERS[b]()
        if not okb:
            ctx.violation("harness %s does not build against the current tree (correspondence no longer checks)" % b,
                          {"kind": "correspondence", "broken": "harness build " + b, "log": outb[-3000:]}, no_input=True)
        ctx.binaries[b] = binp

    # 3. correspondence + spec evaluation
    if not any(v["payload"].get("kind") == "correspondence" for v in ctx.violations):
        for st in cfg["stages"]:
            if ctx.replay_only and ctx.replay_only["stage"] != st["name"]:
                continue
            try:
                STAGES.get(st["kind"], props.EXTRA_STAGES.get(st["kind"]))(ctx, st)
            except Exception as e:  # a crashing stage is a broken check, reported as such
                import traceback
                ctx.violation("stage %s crashed: %r" % (st["name"], e),
                              {"kind": "correspondence", "stage": st["name"], "broken": "stage " + st["name"], "log": traceback.format_exc()[-3000:]}, no_input=True)

    # 4. verdict + evidence
    wall = time.time() - t0
    for fid, text in sorted(ctx.known.items()):
        print("KNOWN-FINDING: property=%s %s" % (prop, text))
    rc = 0
    for v in ctx.violations:
        path = V.write_replay(prop, v["payload"])
        print("VIOLATION property=%s replay=%s%s" % (prop, path, " no-failing-input-found" if v["no_input"] else ""))
        V.log("  " + v["what"])
        rc = 1
    cov = ctx.cov
    ev = {
        "property_id": prop, "tier": tier, "seed": seed, "level": "proof", "wall_s": round(wall, 2),
        "violations": len(ctx.violations),
        "coverage": {
            "obligations": audit["obligations"], "discharged": audit["discharged"],
            "theorems": audit["theorems"], "axioms_reported": audit["axioms"],
            "checker_cmd": " && ".join(cmds),
            "trusted_base": props.TRUSTED_COMMON + cfg.get("trusted", []),
            "evaluations": cov["evaluations"], "distinct_nontrivial": cov["distinct_nontrivial"],
            "rule": cfg["rule"], "samples": cov["samples"][:6], "distribution": cov["distribution"],
            "stages": cov["stages"], "exhaustive": cfg.get("exhaustive", False),
            "known_findings_seen": sorted(ctx.known),
            "coqchk": ({"ok": coqchk["ok"], "axioms": coqchk.get("axioms")} if coqchk else None),
            "coq_sources_hash": h,
        },
        "assumptions": cfg.get("assumptions", []),
    }
    if not replay:
        V.write_evidence(prop, ev)
    V.log("%s %s: %d obligations / %d discharged, %d evaluations (%d distinct non-trivial), %d violations, %.1fs" % (
        prop, tier, audit["obligations"], audit["discharged"], cov["evaluations"], cov["distinct_nontrivial"], len(ctx.violations), wall))
    return rc


def parse_coqchk_axioms(out):
    """the '* Axioms:' block of coqchk's context summary: [] when it says <none>"""
    import re
    m = re.search(r"\* Axioms:(.*?)(?:\n\s*\n\* |\Z)", out, re.S)
    if not m:
        return ["<no context summary in coqchk output>"]
    body = m.group(1).strip()
    if body == "<none>":
        return []
    return [l.strip() for l in body.splitlines() if l.strip()]


def V_coqchk(h):
    """coqchk over the whole compiled development, cached by source hash."""
    stamp = os.path.join(V.WORK, "coqchk-%s.json" % h)
    cmd = "coqchk -silent -o -R coq Mercure <all compiled modules>"
    if os.path.exists(stamp):
        r = json.load(open(stamp))
        r["axioms"] = parse_coqchk_axioms(r.get("log", ""))
        r["cmd"] = cmd + " (cached for this source hash)"
        return r
    mods = []
    for line in open(os.path.join(V.COQ, "_CoqProject")):
        line = line.strip()
        if line.endswith(".v"):
            mods.append("Mercure." + line[:-2].replace("/", "."))
    rc, out, dt = V.run(["coqchk", "-silent", "-o", "-R", V.COQ, "Mercure"] + mods, cwd=V.VERIF, timeout=6000)
    axioms = parse_coqchk_axioms(out)
    r = {"ok": rc == 0, "log": out[-4000:], "axioms": axioms, "wall_s": dt, "cmd": cmd}
    if rc == 0:
        json.dump(r, open(stamp, "w"))
    return r
