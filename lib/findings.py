"""Matchers for KNOWN_FINDINGS.jsonl entries of status "recorded". A matcher
looks at one minimised failing case; it is deliberately narrow so that any other
violation of the same property is still reported. Entries of status "fixed"
suppress nothing."""
import vcheck as V


def _c12_nul_in_id(d):
    if d.get("kind") == "unit":
        return "\x00" in d["event"]["ID"]
    if d.get("kind") == "stream":
        return any("\x00" in p["Submitted"]["ID"] for p in d["publishes"])
    return False


MATCHERS = {
    "c12-nul-in-id": _c12_nul_in_id,
}

_KF = None


def _load():
    global _KF
    if _KF is None:
        _KF = [k for k in V.load_known_findings() if k.get("status") == "recorded"]
    return _KF


def match(prop, desc):
    for k in _load():
        if k["property"] == prop and k["id"] in MATCHERS:
            try:
                if MATCHERS[k["id"]](desc):
                    return k["id"]
            except Exception:
                pass
    return None


def text(fid):
    for k in _load():
        if k["id"] == fid:
            return k["what"]
    return fid
