"""Matchers for KNOWN_FINDINGS.jsonl entries of status "recorded". A matcher
looks at one minimised failing case; it is deliberately narrow so that any other
violation of the same property is still reported. Entries of status "fixed"
suppress nothing."""
import vcheck as V


def _c12_nul_in_id(d):
    if d.get("kind") == "unit":
        return "\x00" in d["event"]["ID"]
    if d.get("kind") == "stream":
        return any("\x00" in p["Submitted"]["ID"] for p in d["publishes"])
    return False


import re as _re

_NAMED_ONE = _re.compile(r"^\{([;?&])((?:[A-Za-z0-9_.]|%[0-9A-Fa-f]{2})+)(?::\d+|\*)?\}$")


def _c11_rest_ok(d):
    """everything else the spec predicate demands holds on this case: the hub's answers are the rule's, expansions match"""
    if d.get("kind") != "template" or not (d.get("parsed") and d.get("compiled")) or d.get("hub_panic"):
        return False
    sel = d["selector"]
    rule = [sel == "*" or t == sel or bool(l) for t, l in zip(d["topics"], d["library"])]
    if rule != d["hub"]:
        return False
    return all(e in d["topics"] and d["library"][d["topics"].index(e)] for e in (d.get("expansions") or []))


def _c11_flagged_named(d):
    m = _NAMED_ONE.match(d.get("selector", ""))
    if not m:
        return []
    pre = m.group(1) + m.group(2)
    return [t for t, l in zip(d["topics"], d["library"]) if l and t != "" and not t.startswith(pre)]


def _c11_flagged_prefix(d):
    if d.get("selector") != "{x:3}":
        return []
    return [t for t, l in zip(d["topics"], d["library"]) if l and t == "abcd"]


def _c11_varname(d):
    # only the named-expression shape is flagged in this case
    return _c11_rest_ok(d) and bool(_c11_flagged_named(d)) and not _c11_flagged_prefix(d)


def _c11_prefix(d):
    return _c11_rest_ok(d) and bool(_c11_flagged_prefix(d)) and not _c11_flagged_named(d)


MATCHERS = {
    "c12-nul-in-id": _c12_nul_in_id,
    "c11-regexp-ignores-variable-name": _c11_varname,
    "c11-regexp-ignores-prefix-length": _c11_prefix,
}

_KF = None


def _load():
    global _KF
    if _KF is None:
        _KF = [k for k in V.load_known_findings() if k.get("status") == "recorded"]
    return _KF


def match(prop, desc):
    for k in _load():
        if k["property"] == prop and k["id"] in MATCHERS:
            try:
                if MATCHERS[k["id"]](desc):
                    return k["id"]
            except Exception:
                pass
    return None


def text(fid):
    for k in _load():
        if k["id"] == fid:
            return k["what"]
    return fid
