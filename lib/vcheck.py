#!/usr/bin/env python3
"""Generic engine behind bin/check: Coq build + Print Assumptions audit, Go
harness build against /repo's working tree, case generation, in-Coq evaluation
of model agreement and spec predicates, verdict, evidence, replay files."""
import concurrent.futures as cf
import hashlib
import json
import os
import re
import shutil
import subprocess
import sys
import time

VERIF = os.path.dirname(os.path.dirname(os.path.abspath(__file__)))
COQ = os.path.join(VERIF, "coq")
HARNESS = os.path.join(VERIF, "harness")
WORK = os.path.join(VERIF, ".work")
REPO = os.environ.get("VERIF_REPO", "/repo")
NPROC = os.cpu_count() or 4

GOENV = dict(os.environ, GOFLAGS="-mod=mod", GOPROXY="off", GOSUMDB="off", GOTOOLCHAIN="local",
             CGO_ENABLED=os.environ.get("CGO_ENABLED", "1"))

ALLOWED_AXIOMS = set()  # stdlib axioms we accept; none needed so far

FORBIDDEN = re.compile(r"\b(Admitted|admit|Axiom|Axioms|Parameter|Parameters|Conjecture|Conjectures|"
                       r"Unset\s+Guard|bypass_check|Admit\s+Obligations|type-in-type|impredicative-set)\b")


def log(*a):
    print(*a, file=sys.stderr, flush=True)


def run(cmd, cwd=None, timeout=1800, env=None, stdin=None):
    t0 = time.time()
    try:
        p = subprocess.run(cmd, cwd=cwd, env=env, timeout=timeout, stdout=subprocess.PIPE,
                           stderr=subprocess.STDOUT, text=True, input=stdin, shell=isinstance(cmd, str))
        return p.returncode, p.stdout, time.time() - t0
    except subprocess.TimeoutExpired as e:
        out = e.stdout if isinstance(e.stdout, str) else (e.stdout or b"").decode("utf-8", "replace")
        return 124, out + "\n[timeout]", time.time() - t0


# --------------------------------------------------------------------------
# Coq side

def coq_sources_hash():
    h = hashlib.sha256()
    for root, _, files in sorted(os.walk(COQ)):
        for f in sorted(files):
            if f.endswith(".v") or f == "_CoqProject":
                p = os.path.join(root, f)
                h.update(p.encode())
                h.update(open(p, "rb").read())
    return h.hexdigest()[:16]


def scan_forbidden():
    """No Admitted/Axiom/... anywhere in the development (comments stripped)."""
    bad = []
    for root, _, files in os.walk(COQ):
        for f in files:
            if not f.endswith(".v"):
                continue
            p = os.path.join(root, f)
            src = open(p, encoding="utf-8").read()
            src = strip_comments(src)
            for m in FORBIDDEN.finditer(src):
                bad.append("%s: %s" % (os.path.relpath(p, VERIF), m.group(0)))
    return bad


def strip_comments(src):
    out, depth, i = [], 0, 0
    while i < len(src):
        if src.startswith("(*", i):
            depth += 1
            i += 2
        elif src.startswith("*)", i) and depth > 0:
            depth -= 1
            i += 2
        else:
            if depth == 0:
                out.append(src[i])
            i += 1
    return "".join(out)


def coq_make(clean=False, timeout=3000):
    os.makedirs(WORK, exist_ok=True)
    if not os.path.exists(os.path.join(COQ, "Makefile")) or \
            os.path.getmtime(os.path.join(COQ, "Makefile")) < os.path.getmtime(os.path.join(COQ, "_CoqProject")):
        rc, out, _ = run(["coq_makefile", "-f", "_CoqProject", "-o", "Makefile"], cwd=COQ)
        if rc != 0:
            return False, out
    if clean:
        run(["make", "clean"], cwd=COQ)
    rc, out, dt = run(["make", "-j%d" % NPROC], cwd=COQ, timeout=timeout)
    return rc == 0, out


def coq_property(prop):
    """(Re)compile Properties/<prop>.v alone and audit its Print Assumptions output.
    Returns dict(obligations, discharged, theorems, axioms, ok, log)."""
    src = os.path.join(COQ, "Properties", prop + ".v")
    text = strip_comments(open(src, encoding="utf-8").read())
    theorems = re.findall(r"\bTheorem\s+(\w+)", text)
    prints = re.findall(r"Print\s+Assumptions\s+(\w+)", text)
    for ext in (".vo", ".glob", ".vok", ".vos"):
        try:
            os.remove(src[:-2] + ext)
        except FileNotFoundError:
            pass
    rc, out, dt = run(["coqc", "-R", ".", "Mercure", "-w", "-notation-overridden", "Properties/%s.v" % prop], cwd=COQ, timeout=1200)
    res = {"theorems": theorems, "obligations": len(theorems), "discharged": 0, "axioms": {}, "ok": False,
           "log": out[-4000:], "wall_s": dt}
    if rc != 0:
        return res
    # one block per Print Assumptions, in order
    blocks = re.split(r"(?m)^(?=Closed under the global context|Axioms:)", out)
    blocks = [b for b in blocks if b.startswith("Closed under") or b.startswith("Axioms:")]
    ok_all = set(theorems) <= set(prints) and len(blocks) == len(prints)
    closed = 0
    for name, b in zip(prints, blocks):
        if b.startswith("Closed under"):
            if name in theorems:
                closed += 1
        else:
            axs = re.findall(r"(?m)^([\w.']+)\s*:", b[len("Axioms:"):])
            res["axioms"][name] = axs
            if all(a in ALLOWED_AXIOMS for a in axs):
                if name in theorems:
                    closed += 1
            else:
                ok_all = False
    res["discharged"] = closed
    res["ok"] = ok_all and closed == len(theorems) and len(theorems) > 0
    return res


_R = re.compile(r"(R_model|R_spec)\s*=\s*(\[[^\]]*\])", re.S)


def coq_eval_shard(path):
    d = os.path.dirname(path)
    rc, out, dt = run(["coqc", "-R", COQ, "Mercure", "-w", "-notation-overridden", os.path.basename(path)], cwd=d, timeout=1500)
    if rc != 0:
        return {"error": out[-3000:], "model": None, "spec": None}
    res = {}
    for name, lst in _R.findall(out):
        nums = [int(x) for x in re.findall(r"\d+", lst)]
        res["model" if name == "R_model" else "spec"] = nums
    if "model" not in res or "spec" not in res:
        return {"error": "unparsable coqc output: " + out[-2000:], "model": None, "spec": None}
    return res


def coq_eval_cases(casedir, shard_size):
    shards = sorted(f for f in os.listdir(casedir) if f.startswith("cases_") and f.endswith(".v"))
    bad_model, bad_spec, errors = [], [], []
    with cf.ThreadPoolExecutor(max_workers=NPROC) as ex:
        results = list(ex.map(lambda s: coq_eval_shard(os.path.join(casedir, s)), shards))
    for k, r in enumerate(results):
        if r.get("error"):
            errors.append("%s: %s" % (shards[k], r["error"]))
            continue
        bad_model += [k * shard_size + i for i in r["model"]]
        bad_spec += [k * shard_size + i for i in r["spec"]]
    return bad_model, bad_spec, errors


# --------------------------------------------------------------------------
# Go side

def build_harness(name="verifh", moddir=None, pkg="./cmd/verifh", goenv=None, gobin="go", extra=None):
    moddir = moddir or HARNESS
    os.makedirs(WORK, exist_ok=True)
    sums = [os.path.join(REPO, "go.sum")]
    if extra:
        sums += extra
    with open(os.path.join(moddir, "go.sum"), "w") as f:
        seen = set()
        for s in sums:
            for line in open(s):
                if line not in seen:
                    seen.add(line)
                    f.write(line)
    binp = os.path.join(WORK, name)
    rc, out, dt = run([gobin, "build", "-o", binp, pkg], cwd=moddir, env=goenv or GOENV, timeout=1500)
    return rc == 0, out, binp


INSTRUMENTED = ["localsubscriber.go", "local.go", "bolt.go"]


def build_sched_harness():
    """Regenerate the instrumented sources from /repo's current working tree (yield points before every statement,
    lock calls routed through the scheduler, buffer capacity 2) and build cmd/verifs with them overlaid."""
    os.makedirs(WORK, exist_ok=True)
    ok, out, yb = build_harness("yieldify", pkg="./cmd/yieldify")
    if not ok:
        return False, out, None
    ov = os.path.join(WORK, "ov")
    shutil.rmtree(ov, ignore_errors=True)
    rc, out, _ = run([yb, "-repo", REPO, "-out", ov, "-runtime", os.path.join(HARNESS, "overlay", "zz_vsched.go.txt"),
                      "-setconst", "outBufferLength=2"] + INSTRUMENTED, cwd=WORK)
    if rc != 0:
        return False, "yieldify failed: " + out, None
    binp = os.path.join(WORK, "verifs")
    rc, out, _ = run(["go", "build", "-tags", "verif", "-overlay", os.path.join(ov, "overlay.json"), "-o", binp, "./cmd/verifs"],
                     cwd=HARNESS, env=GOENV, timeout=1500)
    return rc == 0, out, binp


HARNESS26 = os.path.join(VERIF, "harness26")


def build_go126_harness():
    """The virtual-clock harness (testing/synctest needs Go 1.26): a test binary."""
    os.makedirs(WORK, exist_ok=True)
    with open(os.path.join(HARNESS26, "go.sum"), "w") as f:
        f.write(open(os.path.join(REPO, "go.sum")).read())
    binp = os.path.join(WORK, "verif26.test")
    rc, out, _ = run(["go1.26", "test", "-c", "-o", binp, "."], cwd=HARNESS26, env=GOENV, timeout=1500)
    return rc == 0, out, binp


HARNESS_CADDY = os.path.join(VERIF, "harness_caddy")


def build_caddy_harness():
    """cmd/verifc: provisions the Caddy module and the legacy viper hub in-process. Two read-only accessors (the effective
    options struct; the hub inside the Caddy module) are added to /repo's packages at build time through -overlay."""
    os.makedirs(WORK, exist_ok=True)
    ov = os.path.join(WORK, "ovc")
    shutil.rmtree(ov, ignore_errors=True)
    os.makedirs(ov)
    rep = {}
    for src, dst in (("zz_verif_opts.go.txt", os.path.join(REPO, "zz_verif_opts.go")),
                     ("zz_verif_hub.go.txt", os.path.join(REPO, "caddy", "zz_verif_hub.go"))):
        t = os.path.join(ov, src[:-4])
        shutil.copy(os.path.join(HARNESS_CADDY, "overlay", src), t)
        rep[dst] = t
    with open(os.path.join(ov, "overlay.json"), "w") as f:
        json.dump({"Replace": rep}, f)
    with open(os.path.join(HARNESS_CADDY, "go.sum"), "w") as f:
        seen = set()
        for sp in (os.path.join(REPO, "go.sum"), os.path.join(REPO, "caddy", "go.sum")):
            for line in open(sp):
                if line not in seen:
                    seen.add(line)
                    f.write(line)
    binp = os.path.join(WORK, "verifc")
    rc, out, _ = run(["go", "build", "-tags", "verif", "-overlay", os.path.join(ov, "overlay.json"), "-o", binp, "./cmd/verifc"],
                     cwd=HARNESS_CADDY, env=GOENV, timeout=1500)
    return rc == 0, out, binp


def build_race_harness():
    os.makedirs(WORK, exist_ok=True)
    binp = os.path.join(WORK, "verifr")
    with open(os.path.join(HARNESS, "go.sum"), "w") as f:
        f.write(open(os.path.join(REPO, "go.sum")).read())
    rc, out, _ = run(["go", "build", "-race", "-o", binp, "./cmd/verifr"], cwd=HARNESS, env=GOENV, timeout=1500)
    return rc == 0, out, binp


def run_driver(binp, prop, seed, n, tier, outdir, only=None, timeout=3000, extra_args=None):
    shutil.rmtree(outdir, ignore_errors=True)
    os.makedirs(outdir, exist_ok=True)
    cmd = [binp, prop, "-seed", str(seed), "-n", str(n), "-tier", tier, "-out", outdir]
    if only is not None:
        cmd += ["-only", str(only)]
    if extra_args:
        cmd += extra_args
    rc, out, dt = run(cmd, cwd=WORK, env=GOENV, timeout=timeout)
    return rc, out, dt


# --------------------------------------------------------------------------
# findings, replay, evidence

def load_known_findings():
    p = os.path.join(VERIF, "KNOWN_FINDINGS.jsonl")
    res = []
    if os.path.exists(p):
        for line in open(p):
            line = line.strip()
            if line and not line.startswith("#"):
                res.append(json.loads(line))
    return res


def write_replay(prop, payload):
    os.makedirs(os.path.join(VERIF, "replays"), exist_ok=True)
    blob = json.dumps(payload, sort_keys=True, default=str)
    h = hashlib.sha256(blob.encode()).hexdigest()[:12]
    path = os.path.join(VERIF, "replays", "%s-%s.json" % (prop, h))
    with open(path, "w") as f:
        json.dump(payload, f, indent=1, sort_keys=True, default=str)
    return path


def write_evidence(prop, ev):
    os.makedirs(os.path.join(VERIF, "evidence"), exist_ok=True)
    with open(os.path.join(VERIF, "evidence", prop + ".json"), "w") as f:
        json.dump(ev, f, indent=1, sort_keys=True, default=str)


def desc_size(d):
    return len(json.dumps(d, default=str))
