BASELINE_OFF = ("cd /repo && export GOFLAGS=-mod=mod GOPROXY=off GOSUMDB=off && go test -vet=off -count=1 -timeout 25m ./... "
                "&& (cd caddy && go test -vet=off -count=1 -timeout 25m ./...)")
SOURCE_COMMITS = []
NOTES = ("Every claimed property: theorems in coq/Properties/<id>.v (only `exact` of lemmas proved in coq/Proofs, each followed by "
         "Print Assumptions), model in coq/Model, correspondence drivers in harness/. Known findings: KNOWN_FINDINGS.jsonl. See DESIGN.md.")
NOT_APPLICABLE = {}
META = {
    "C05": {
        "text": "Coq theorem C05_recipients_exact: for every template oracle, every add/remove/dispatch history and arbitrary forgetting by the memo cache, "
                "each dispatch is handed to exactly the connected matching (and, if private, authorized) subscribers; plus the key codec round-trip over all "
                "byte strings (delimiter/escape bytes, empty strings, duplicates). Model tied to the real SubscriberList by differential histories evaluated in Coq.",
        "design_ref": "DESIGN.md §5 C05",
        "note": "trusted: Coq kernel + vm_compute; skipfilter/roaring/LRU by contract; uritemplate/regexp as oracle; Go drivers",
        "technique": "Coq proof (index invariant by induction over operation histories; codec round-trip) + differential correspondence evaluated in Coq",
    },
    "C10": {
        "text": "Coq theorem C10_window: for every size, every outcome of the cleanup trigger at each publication, any number of publications and reopenings, "
                "the retained sequence numbers are exactly lo..n, at least min(n,size), exactly that when cleanup always runs, everything when size=0 or cleanup "
                "never runs; corollary C10_replay_complete. Tied to bolt.go by publish sequences on the real transport (payloads spanning several B-tree pages, "
                "restarts in between), each step compared with the model's two allowed outcomes.",
        "design_ref": "DESIGN.md §5 C10",
        "note": "trusted: Coq kernel + vm_compute; bbolt by contract; Go drivers. Defect found and fixed: cleanup skipped every second key.",
        "technique": "Coq proof (induction over publications) + differential correspondence evaluated in Coq",
    },
    "C11": {
        "text": "Coq theorems over mercure's own matching logic with the URI-template library as a parameter: the rule (C11_spec, invalid template matches only "
                "itself), the code's shortcut follows the rule, the cache is transparent for every lookup history from every truthful cache state (any evictions), "
                "and under every interleaving of the cache Get/Set steps of concurrent evaluations. Tied to the code by lookup sequences (sequential and concurrent) "
                "against stores of every size, each answer compared with a fresh uncached evaluation.",
        "design_ref": "DESIGN.md §5 C11",
        "note": "trusted: Coq kernel + vm_compute; uritemplate + regexp as oracle (RFC 6570 expansion semantics itself is not modelled: layer B of the design is not built); LRU by contract; Go drivers",
        "technique": "Coq proof (cache-truthfulness invariant over all histories and interleavings) + differential correspondence evaluated in Coq",
    },
    "C12": {
        "text": "Coq theorems C12_roundtrip / C12_stream: for every payload and every id/type free of line breaks (id free of U+0000) the modelled "
                "Event.String() bytes decode, under a Gallina transcription of the WHATWG event-stream algorithm, to exactly one event with the published "
                "id/type/retry/data(LF-normalised), and any stream of such events and ':' heartbeats decodes to exactly those events. The model is tied to "
                "the code by byte-for-byte comparison of Event.String() and of end-to-end streams (POST form -> local/bolt, live/replay), evaluated in Coq.",
        "design_ref": "DESIGN.md §5 C12",
        "note": "trusted: Coq kernel + vm_compute; hand transcription of the WHATWG parser; Go drivers; net/http form decoding, encoding/json, uuid only exercised. "
                "Recorded finding: id containing U+0000 (C12_roundtrip_refuted_nul).",
        "technique": "Coq proof (codec round-trip by induction) + differential correspondence evaluated in Coq",
    },
}
