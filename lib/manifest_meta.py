BASELINE_OFF = ("cd /repo && export GOFLAGS=-mod=mod GOPROXY=off GOSUMDB=off && go test -vet=off -count=1 -timeout 25m ./... "
                "&& (cd caddy && go test -vet=off -count=1 -timeout 25m ./...)")
SOURCE_COMMITS = []
NOTES = ("Every claimed property: theorems in coq/Properties/<id>.v (only `exact` of lemmas proved in coq/Proofs, each followed by "
         "Print Assumptions), model in coq/Model, correspondence drivers in harness/. Known findings: KNOWN_FINDINGS.jsonl. See DESIGN.md.")
NOT_APPLICABLE = {}
META = {
    "C12": {
        "text": "Coq theorems C12_roundtrip / C12_stream: for every payload and every id/type free of line breaks (id free of U+0000) the modelled "
                "Event.String() bytes decode, under a Gallina transcription of the WHATWG event-stream algorithm, to exactly one event with the published "
                "id/type/retry/data(LF-normalised), and any stream of such events and ':' heartbeats decodes to exactly those events. The model is tied to "
                "the code by byte-for-byte comparison of Event.String() and of end-to-end streams (POST form -> local/bolt, live/replay), evaluated in Coq.",
        "design_ref": "DESIGN.md §5 C12",
        "note": "trusted: Coq kernel + vm_compute; hand transcription of the WHATWG parser; Go drivers; net/http form decoding, encoding/json, uuid only exercised. "
                "Recorded finding: id containing U+0000 (C12_roundtrip_refuted_nul).",
        "technique": "Coq proof (codec round-trip by induction) + differential correspondence evaluated in Coq",
    },
}
