BASELINE_OFF = ("cd /repo && export GOFLAGS=-mod=mod GOPROXY=off GOSUMDB=off && go test -vet=off -count=1 -timeout 25m ./... "
                "&& (cd caddy && go test -vet=off -count=1 -timeout 25m ./...)")
SOURCE_COMMITS = []
NOTES = ("Every claimed property: theorems in coq/Properties/<id>.v (only `exact` of lemmas proved in coq/Proofs, each followed by "
         "Print Assumptions), model in coq/Model, correspondence drivers in harness/. Known findings: KNOWN_FINDINGS.jsonl. See DESIGN.md.")
NOT_APPLICABLE = {}
HUB_NOTE = ("trusted: Coq kernel + vm_compute; the granularity of Model/Hub.v (critical sections and subscriber methods atomic, by the reduction argument "
            "in its header); bbolt by contract; Go drivers. The tie to the code is sequential handler-level histories (agreement with the model and with the "
            "abstract sequential spec); interleavings are covered by the theorems, and by steered schedules where a stage says so.")
META = {
    "C03": {
        "text": "Coq theorems over the validation pipeline (validateJWT + key function + ParseWithClaims' order of checks) with base64 / JSON / signature verification as "
                "parameters: a grant implies three decodable segments, a header naming exactly the configured algorithm, a signature verifying under the configured key with "
                "that algorithm, exp > now >= nbf; any other algorithm name is refused whatever the signature; a presented but invalid token is 401 on all three endpoint "
                "kinds with anonymous mode on or off. Partial by nature: decision logic only - cryptographic strength is outside. Tied to the code by a mutation corpus over "
                "all accepted families judged by an independent verifier.",
        "design_ref": "DESIGN.md §5 C03",
        "note": "trusted: Coq kernel + vm_compute; Go crypto/*, base64, JSON (oracles via the independent verifier); golang-jwt's internals; Go drivers",
        "technique": "Coq proof (decision pipeline case analysis) + differential correspondence against an independent verifier evaluated in Coq",
    },
    "C18": {
        "text": "Coq theorems: (hub LTS, every schedule) while open the transport lists each subscriber at most once and exactly those between indexing and removal - at "
                "quiescence the open streams; (API model) per-topic collection = filtered collection, a pair is found iff listed, every listed id routes back through "
                "the escaped URL to itself (QueryEscape round-trip over all byte strings), 304 iff If-None-Match = last event id, and with subscriber keys only callers "
                "whose verified subscribe selectors match the URL are answered. Tied to the code by API probes over adversarial selectors on both transports and by "
                "the number of listed subscribers after every operation of the hub histories.",
        "design_ref": "DESIGN.md §5 C18", "note": HUB_NOTE,
        "technique": "Coq proof (hub LTS invariant; list/codec lemmas; decision-function case analysis) + differential correspondence of API probes evaluated in Coq",
    },
    "C19": {
        "text": "Coq theorems over a model of UnmarshalCaddyfile + populateJWTConfig + Provision + NewHub's option validation and of the legacy options (every directive "
                "list, every field record, every legacy record; key and origin validity as parameters): whatever is accepted has a usable publisher key, a usable subscriber "
                "key unless anonymous mode was asked for, and only valid origins; no publisher key / no subscriber key without anonymous / a protocol version other than 7 "
                "are refused; omitted options take the restrictive defaults; flags are in effect once written, valued directives by their last occurrence, directives of "
                "different kinds commute. Tied to the code by provisioning the real module and the legacy hub in-process on generated configurations and probing the "
                "resulting handler.",
        "design_ref": "DESIGN.md §5 C19", "note": "full for the directives modelled; JWKS URLs, placeholders, demo/ui and mixing transport with transport_url are outside the model",
        "technique": "Coq proof (fold characterisation of the directive list; decision-function case analysis) + differential correspondence of provisioning outcomes and handler probes evaluated in Coq",
    },
    "C16": {
        "text": "Coq theorems over a timed automaton of the subscribe handler (Z nanoseconds; every configuration, expiry and arrival times): the write deadline is "
                "min(write timeout, token expiry) with absent terms dropped and the disconnection timer is armed iff a write timeout exists, one dispatch timeout earlier; "
                "consecutive writes of an open stream are at most one heartbeat apart; no write succeeds after the deadline; with a maximum duration the handler ends "
                "exactly at the disconnection instant (no earlier, no failed write before), otherwise only on a write attempted after the deadline. Tied to the code "
                "by running the real handler under a virtual clock (testing/synctest) over the full configuration grid.",
        "design_ref": "DESIGN.md §5 C16",
        "note": "trusted: Coq kernel + vm_compute; testing/synctest and the Go 1.26 runtime; the deadline-enforcing fake ResponseWriter; eager-handler / zero-time-write idealisation",
        "technique": "Coq proof (timed automaton, induction on steps) + differential correspondence under a virtual clock evaluated in Coq",
    },
    "C17": {
        "text": "Coq theorems over the hub transition system: with tracking on, every schedule without crash and before any close, each subscriber has exactly [] / "
                "[active=true] / [true;false] events according to its handler's phase (the announcement precedes indexing; the end is announced also when registration "
                "fails), none with tracking off; the event URL is built with a QueryEscape model proved to round-trip and to route back to (selector, subscriber). "
                "Tied to the code by watcher-observed event streams over adversarial selectors on both transports, and by the hub histories.",
        "design_ref": "DESIGN.md §5 C17", "note": HUB_NOTE,
        "technique": "Coq proof (inductive invariant of the hub LTS; codec round-trip) + differential correspondence of watcher-observed events evaluated in Coq",
    },
    "C01": {
        "text": "Coq theorem C01_only_matching_is_sent over the hub transition system (publishers, subscriber handlers with registration / history scan / queue / "
                "go-live, Close, crashes; every schedule; both transports): everything ever sent to or queued for a subscriber matches it; with "
                "C01_private_needs_claim / C01_anonymous_never_private (a private update matches only through verified subscribe selectors) and C02_private_flag. "
                "Tied to the code by handler-level histories with private updates, anonymous / claimed subscribers, replay and subscription events.",
        "design_ref": "DESIGN.md §5 C01", "note": HUB_NOTE,
        "technique": "Coq proof (inductive invariant of the hub LTS over all schedules) + differential correspondence of handler-level histories evaluated in Coq",
    },
    "C06": {
        "text": "Coq theorems over the hub transition system (any number of publishers and subscriber handlers, registration / history scan / queue / go-live as separate "
                "steps, Close, crashes; every schedule; both transports): a live subscriber that has not been cut off has been sent, after its replay, exactly the "
                "matching updates committed after its registration, in commit order (C06_live_exactly_the_matching_suffix), nothing twice when the published ids are "
                "distinct (C06_exactly_once, with C06_committed_distinct: distinct publisher ids give a duplicate-free commit order, each subscription event being "
                "dispatched at most once); the handler writes in FIFO order what was buffered; with Bolt the stored history is the commit order, entry k at sequence k; "
                "the commit order is append-only and an update acknowledged before another one is committed precedes it; and at the granularity of single lock / atomic / channel "
                "operations (C06_fine_grained_order_and_no_loss): under the hub's usage pattern the live updates are queued, flushed by Ready or sent in dispatch order, each once, "
                "and nothing accepted is left behind once Ready has completed. Tied to the code by schedule-steered runs of the "
                "instrumented transports and of a LocalSubscriber (every schedule with <= 2 preemptions per scenario) and by handler-level histories.",
        "design_ref": "DESIGN.md §5 C06", "note": HUB_NOTE + " Both transports, any retention size (C06_live_exactly_the_matching_suffix is stated with retention off; its "
                "general form is C07_replay_then_live_with_retention); for the local transport the 'commit order' is the order of the fan-out critical sections.",
        "technique": "Coq proof (inductive invariant of the hub LTS over all schedules) + differential correspondence of schedule-steered transport / subscriber runs and handler-level histories evaluated in Coq",
    },
    "C07": {
        "text": "Coq theorem C07_replay_then_live over the hub transition system (both transports, crashes and restarts anywhere, every placement of concurrent "
                "publishes relative to indexing + cut-off, each step of the history scan and each step of the go-live flush): what a subscriber has been sent, and what "
                "its handler has written, is always a prefix of the ideal sequence - matching stored updates after the requested id up to the cut-off, then matching "
                "updates committed after it - and equals it while the subscriber is live and not cut off; the ideal sequence is the matching part of the single "
                "commit order from just after the requested id ('earliest': from the first retained entry; no or unknown id, or the local transport: from the registration "
                "point); the scan of a snapshot that already contains later updates stops at the cut-off; bounded retention is covered "
                "(C07_replay_then_live_with_retention, C06_stored_order_with_retention). Tied to the code by schedule-steered runs of the instrumented Bolt transport "
                "(restart, Last-Event-ID none / earliest / stored / unknown, publishes racing the registration) and of a LocalSubscriber, handler-level histories with "
                "restarts and 1000+ update bursts, and replays larger than the buffer. Write transactions that fail (a refused key, a commit that cannot be "
                "written) are outside that transition system; they are covered by a smaller model of persist() (Model/BoltPersist.v): for any sequence of "
                "committing and failing transactions the cut-off read at registration separates exactly the keys present then from those stored later "
                "(C07_cutoff_separates_history_from_live_with_failed_writes), the last event id is the last committed one, and the code before the repair "
                "3127a7e is proved not to have the property; tied to the code by transport schedules that start with a refused publish and by the "
                "failed-write stage of C09.",
        "design_ref": "DESIGN.md §5 C07", "note": HUB_NOTE + " Both transports and any retention size (C07_replay_then_live_with_retention: the replay covers the entries "
                "retained when the scan read the history; a requested id that was already dropped is unknown).",
        "technique": "Coq proof (inductive invariant of the hub LTS over all schedules and crash points) + differential correspondence of schedule-steered transport / subscriber runs and handler-level histories evaluated in Coq",
    },
    "C09": {
        "text": "Coq theorems over the hub transition system with a crash action anywhere in the schedule: acknowledged updates are committed, every database "
                "entry is the committed update of its sequence number for ever, the newest update is always retained, a publish is acknowledged only after its "
                "update is stored, a crash loses nothing committed and lastSeq/last id are recovered; for every retention size the file is a contiguous suffix of the committed history under consecutive sequence numbers. Partial: bbolt's transaction is one atomic durable step "
                "of the model (trusted). Tied to the code by exhaustive kill-point enumeration over the scheduling points of the instrumented sources (file reopened after "
                "every kill) and by handler-level histories with restarts.",
        "design_ref": "DESIGN.md §5 C09", "note": HUB_NOTE,
        "technique": "Coq proof (inductive invariant with crash transitions) + exhaustive kill-point enumeration and histories with restarts judged in Coq",
    },
    "C15": {
        "text": "Coq theorems over the hub transition system: after Close's critical section every indexed subscriber's channel is closed for ever (its handler "
                "sees the end), operations after Close began are refused without effect, Close is idempotent, disconnected = closed for every subscriber in "
                "every reachable state; with no retention limit the file holds, in every reachable state and with crashes anywhere, the whole committed history in commit order and so every acknowledged update, and reopening after Close finds the same file. Tied to the code by histories with Hub.Stop, refused publishes/subscribes and restarts.",
        "design_ref": "DESIGN.md §5 C15", "note": HUB_NOTE,
        "technique": "Coq proof (inductive invariant of the hub LTS over all schedules) + differential correspondence of handler-level histories evaluated in Coq",
    },
    "C20": {
        "text": "Coq theorems over the hub transition system: in every reachable state the gauge equals the number of handlers between successful registration and "
                "the end of shutdown; at every step updates_total grows exactly with acknowledged publishes and subscribers_total exactly with registrations; globally, between two restarts "
                "and from any state, subscribers_total grows by exactly the number of streams accepted and updates_total by exactly the number of publishes acknowledged "
                "(refused ones count for nothing), 0 <= gauge <= subscribers_total, and a restart zeroes all three. "
                "Tied to the code by reading the real Prometheus registry after every operation of handler-level histories.",
        "design_ref": "DESIGN.md §5 C20", "note": HUB_NOTE,
        "technique": "Coq proof (inductive invariant of the hub LTS over all schedules) + differential correspondence of metrics after every operation",
    },
    "C13": {
        "text": "Coq theorems over a transition system of localsubscriber.go with one step per lock operation / atomic access / channel operation, for any number "
                "of threads, any method sequences and every schedule: no step other than a mutex acquisition or the consumer's receive can block; critical sections "
                "always progress; the buffer never exceeds its capacity and the consumer sees exactly what was sent; after an overflow (live, replay, queue flush) "
                "or Disconnect nothing more is sent, the disconnecting thread closes the channel itself, and the consumer observes the end; at hub level (hub LTS, every schedule, crashes) "
                "a subscriber whose handler has run its shutdown is not in the index unless the hub was closed, and what a publish does to one subscriber is a function of that subscriber alone. Tied to the code by "
                "sequential histories around the real capacity and by schedule-steered runs of the instrumented current sources. Partial: wall-clock bounds and "
                "the handler-level 'no longer listed' / 'others unaffected' parts are exercised by the harness, not yet theorems.",
        "design_ref": "DESIGN.md §5 C13, §3.1",
        "note": "trusted: Coq kernel + vm_compute; Go memory model (DRF-SC); rewriter and scheduler; atomic-method outcome model as over-approximation",
        "technique": "Coq proof (inductive invariant of a fine-grained LTS over all schedules) + sequential and schedule-steered correspondence evaluated in Coq",
    },
    "C14": {
        "text": "Coq theorems over the same transition system: for every schedule and any number of threads no close/send on a closed channel and no bad unlock "
                "(C14_no_panic), mutual exclusion of the liveMutex/outMutex critical sections (all other shared accesses are atomic: data-race freedom of the "
                "subscriber), and deadlock freedom (lock order liveMutex < outMutex, critical sections never block). Tied to the code by exhaustive "
                "preemption-bounded schedule exploration of the instrumented current sources (panic / all-blocked flags and outcome sets compared). "
                "Partial: transport-level locks and skipfilter internals are covered by the harness and -race stress, not by these theorems.",
        "design_ref": "DESIGN.md §5 C14, §3.1",
        "note": "trusted: Coq kernel + vm_compute; Go memory model (DRF-SC); rewriter and scheduler; atomic-method outcome model as over-approximation",
        "technique": "Coq proof (inductive invariant of a fine-grained LTS over all schedules) + preemption-bounded schedule exploration of the real code",
    },
    "C02": {
        "text": "Coq theorems over the publish handler's decision function (token validation, Referer parsing and URI templates as parameters): an update reaches "
                "the transport only for a verified credential whose publish claim covers every topic ('*' anywhere), or in compat-7 mode for public updates; "
                "every other outcome is 400/401 and changes nothing; canDispatch's early-return loop equals its specification. Tied to the code by an exhaustive "
                "enumeration of the claim x topics x private x compat x body x transport table through real POSTs with effects observed.",
        "design_ref": "DESIGN.md §5 C02",
        "note": "trusted: Coq kernel + vm_compute; net/http form parsing (oracle), JWT verification (see C03), uritemplate oracle, Go drivers",
        "technique": "Coq proof (decision-function case analysis, loop/spec equivalence by induction) + exhaustive differential correspondence evaluated in Coq",
    },
    "C04": {
        "text": "Coq theorems over authorize(): header-only, query-when-no-header, the cookie CSRF rule, anonymous = no carrier, invalid credentials never "
                "downgraded; with validate / Referer parsing as parameters. Tied to the code by the exhaustive product of carrier states on all three endpoint "
                "kinds, the effective identity being observed through per-credential rights.",
        "design_ref": "DESIGN.md §5 C04",
        "note": "trusted: Coq kernel + vm_compute; net/http header/cookie/query parsing, url.Parse (oracle), JWT verification (see C03), Go drivers",
        "technique": "Coq proof (case analysis of the decision function) + exhaustive differential correspondence evaluated in Coq",
    },
    "C08": {
        "text": "Coq theorems: carrier precedence, header iff requested, and C08_truthful (for every history and requested id the reported id equals the requested "
                "one exactly when replay resumes right after it, 'earliest' when everything is replayed, and differs otherwise). Tied to the code by exhaustive "
                "carrier combinations and generated (truncated, duplicated) histories on both transports, header and replayed ids observed.",
        "design_ref": "DESIGN.md §5 C08",
        "note": "trusted: Coq kernel + vm_compute; net/http parsing; bbolt cursor order; Go drivers. Concurrent publishes during the scan are C07's subject.",
        "technique": "Coq proof (induction over the history list) + differential correspondence evaluated in Coq",
    },
    "C05": {
        "text": "Coq theorem C05_recipients_exact: for every template oracle, every add/remove/dispatch history and arbitrary forgetting by the memo cache, "
                "each dispatch is handed to exactly the connected matching (and, if private, authorized) subscribers; plus the key codec round-trip over all "
                "byte strings (delimiter/escape bytes, empty strings, duplicates). Model tied to the real SubscriberList by differential histories evaluated in Coq.",
        "design_ref": "DESIGN.md §5 C05",
        "note": "trusted: Coq kernel + vm_compute; skipfilter/roaring/LRU by contract; uritemplate/regexp as oracle; Go drivers",
        "technique": "Coq proof (index invariant by induction over operation histories; codec round-trip) + differential correspondence evaluated in Coq",
    },
    "C10": {
        "text": "Coq theorem C10_window: for every size, every outcome of the cleanup trigger at each publication, any number of publications and reopenings, "
                "the retained sequence numbers are exactly lo..n, at least min(n,size), exactly that when cleanup always runs, everything when size=0 or cleanup "
                "never runs; corollary C10_replay_complete; when the size changes at restarts the window stays contiguous (C10_reconfigured_contiguous, replay still complete) and each publication keeps "
                "everything with fewer than the current size newer updates, a cleanup that runs leaves nothing older. Tied to bolt.go by publish sequences on the real transport (payloads spanning several B-tree pages, "
                "restarts in between), each step compared with the model's two allowed outcomes.",
        "design_ref": "DESIGN.md §5 C10",
        "note": "trusted: Coq kernel + vm_compute; bbolt by contract; Go drivers. Defect found and fixed: cleanup skipped every second key.",
        "technique": "Coq proof (induction over publications) + differential correspondence evaluated in Coq",
    },
    "C11": {
        "text": "Coq theorems over mercure's own matching logic for every instance of the URI-template library: the rule (C11_spec, invalid template matches only "
                "itself), the code's shortcut follows the rule, the cache is transparent for every lookup history from every truthful cache state (any evictions), "
                "and under every interleaving of the cache Get/Set steps of concurrent evaluations; and over a model of the library as the hub uses it "
                "(Model/UriTemplate.v: parseURITemplate, expression.init/regexp, the meaning of the generated regular expression): the executable matcher decides "
                "exactly the expression's language (C11_template_matcher_decides_language) and every RFC 6570 expansion, for string and list values, of a selector the hub "
                "treats as a template is answered true (C11_expansions_match). The converse is false of the code and proved so "
                "(C11_only_expansions_match_refuted_name / _prefix: known findings). Tied to the code by lookup sequences (sequential and concurrent) against "
                "stores of every size, each answer compared with a fresh uncached evaluation, and by generated templates x topics on which model and library must "
                "agree on validity, compilability and every match, and the hub must answer by the rule without panicking.",
        "design_ref": "DESIGN.md §5 C11",
        "note": "trusted: Coq kernel + vm_compute; Go's regexp engine (the model gives the meaning of the generated expression; validity by differential runs); "
                "RFC 6570 expansion transcribed by hand for string and list values (associative-array values: differential runs only); LRU by contract; Go drivers",
        "technique": "Coq proof (cache-truthfulness invariant over all histories and interleavings; decision procedure = language; expansion completeness by induction) + differential correspondence evaluated in Coq",
    },
    "C12": {
        "text": "Coq theorems C12_roundtrip / C12_stream: for every payload and every id/type free of line breaks (id free of U+0000) the modelled "
                "Event.String() bytes decode, under a Gallina transcription of the WHATWG event-stream algorithm, to exactly one event with the published "
                "id/type/retry/data(LF-normalised), and any stream of such events and ':' heartbeats decodes to exactly those events. The model is tied to "
                "the code by byte-for-byte comparison of Event.String() and of end-to-end streams (POST form -> local/bolt, live/replay), evaluated in Coq.",
        "design_ref": "DESIGN.md §5 C12",
        "note": "trusted: Coq kernel + vm_compute; hand transcription of the WHATWG parser; Go drivers; net/http form decoding, encoding/json, uuid only exercised. "
                "Recorded finding: id containing U+0000 (C12_roundtrip_refuted_nul).",
        "technique": "Coq proof (codec round-trip by induction) + differential correspondence evaluated in Coq",
    },
}
